#!/usr/bin/env python3
"""Translator: regenerates coq/gen/*.v from /repo/src on every check.

Deliberately small: it copies literal tables and numeric constants (found by anchored
regular expressions) out of the Rust sources into Coq definitions over N / Z.  The
hand-written models under coq/model refer to these names, so every theorem is
re-checked against the numbers the code contains now.  If an anchor no longer matches
the generator raises GenError naming the anchor; the caller then reports the
regenerated part as "no longer shown".
"""
import os, re, sys

REPO = os.environ.get("VERIF_REPO", "/repo")


class GenError(Exception):
    pass


def src(path):
    with open(os.path.join(REPO, path), encoding="utf-8") as f:
        return f.read()


_num = re.compile(r"^(-?)(0x[0-9a-fA-F_]+|[0-9_]+)(?:_?(?:u8|u16|u32|u64|usize|i8|i16|i32|i64|isize))?$")


def parse_num(tok, anchor):
    tok = tok.strip()
    # forms like `4i32 as u8`, `(1 as u32)`
    tok = re.sub(r"\s+as\s+\(?\w+\)?", "", tok).strip("() ")
    m = _num.match(tok)
    if not m:
        raise GenError("%s: cannot parse numeric literal %r" % (anchor, tok))
    v = int(m.group(2).replace("_", ""), 0)
    return -v if m.group(1) else v


def static_array(text, name, anchor):
    """pub static NAME: [T; N] = [a, b, c];  -> list of ints"""
    m = re.search(r"(?:pub(?:\(crate\))?\s+)?(?:static|const)\s+" + re.escape(name) + r"\s*:\s*\[[^;\]]+;\s*[^\]]+\]\s*=\s*\[(.*?)\]\s*;", text, re.S)
    if not m:
        raise GenError("%s: static array %s not found" % (anchor, name))
    body = re.sub(r"//[^\n]*", "", m.group(1))
    body = re.sub(r"/\*.*?\*/", "", body, flags=re.S)
    toks = [t for t in (x.strip() for x in body.split(",")) if t]
    return [parse_num(t, anchor + ":" + name) for t in toks]


def struct_array(text, name, fields, anchor):
    m = re.search(r"static\s+" + re.escape(name) + r"\s*:\s*\[[^\]]+\]\s*=\s*\[(.*?)\n\];", text, re.S)
    if not m:
        raise GenError("%s: struct array %s not found" % (anchor, name))
    out = []
    for sm in re.finditer(r"\{(.*?)\}", m.group(1), re.S):
        d = {}
        for fm in re.finditer(r"(\w+)\s*:\s*([^,\n]+)", sm.group(1)):
            d[fm.group(1)] = parse_num(fm.group(2), anchor + ":" + name)
        out.append(tuple(d[f] for f in fields))
    if not out:
        raise GenError("%s: struct array %s empty" % (anchor, name))
    return out


def const(text, name, anchor):
    m = re.search(r"(?:pub(?:\(crate\))?\s+)?(?:const|static)\s+" + re.escape(name) + r"\s*:\s*\w+\s*=\s*([^;]+);", text)
    if not m:
        raise GenError("%s: const %s not found" % (anchor, name))
    return parse_num(m.group(1), anchor + ":" + name)


def fn_body(text, name, anchor):
    """text of the function `name` (from `fn name` to the matching closing brace)."""
    m = re.search(r"fn\s+" + re.escape(name) + r"\s*(?:<[^>]*>)?\s*\(", text)
    if not m:
        raise GenError("%s: fn %s not found" % (anchor, name))
    i = text.index("{", m.end())
    depth = 0
    for j in range(i, len(text)):
        if text[j] == "{":
            depth += 1
        elif text[j] == "}":
            depth -= 1
            if depth == 0:
                return text[m.start():j + 1]
    raise GenError("%s: fn %s unbalanced" % (anchor, name))


def nums_in(body, pattern, anchor, count=None):
    """all numeric captures of `pattern` in `body`, in order."""
    res = [parse_num(m.group(1), anchor) for m in re.finditer(pattern, body)]
    if count is not None and len(res) != count:
        raise GenError("%s: expected %d matches of %r, found %d" % (anchor, count, pattern, len(res)))
    return res


def coq_list(xs, scope="N"):
    return "[" + "; ".join(str(x) for x in xs) + "]%" + scope


def coq_zlist(xs):
    return "[" + "; ".join(("(%d)" % x) if x < 0 else str(x) for x in xs) + "]%Z"


LIT = r"(-?(?:0x[0-9a-fA-F_]+|[0-9][0-9_]*)(?:_?(?:u8|u16|u32|u64|usize|i8|i16|i32|i64|isize))?)"


# ---------------------------------------------------------------------------------
# sections: each returns a list of Coq definition lines
# ---------------------------------------------------------------------------------

def gen_arith():
    out = []
    c = src("src/enc/constants.rs")
    for n in ("kInsBase", "kInsExtra", "kCopyBase", "kCopyExtra"):
        out.append("Definition %s : list N := %s." % (n, coq_list(static_array(c, n, "constants.rs"))))
    b = src("src/enc/brotli_bit_stream.rs")
    pr = struct_array(b, "kBlockLengthPrefixCode", ("offset", "nbits"), "brotli_bit_stream.rs")
    out.append("Definition kBlockLengthPrefixCode_offset : list N := %s." % coq_list([p[0] for p in pr]))
    out.append("Definition kBlockLengthPrefixCode_nbits : list N := %s." % coq_list([p[1] for p in pr]))
    out.append("Definition BROTLI_NUM_BLOCK_LEN_SYMBOLS : N := %d." % const(c, "BROTLI_NUM_BLOCK_LEN_SYMBOLS", "constants.rs"))
    e = src("src/enc/encode.rs")
    for n in ("BROTLI_NUM_DISTANCE_SHORT_CODES", "BROTLI_MAX_ALLOWED_DISTANCE", "BROTLI_MAX_DISTANCE_BITS",
              "BROTLI_LARGE_MAX_DISTANCE_BITS"):
        out.append("Definition %s : N := %d." % (n, const(e, n, "encode.rs")))
    out.append("Definition BROTLI_WINDOW_GAP : N := %d." % const(c, "BROTLI_WINDOW_GAP", "constants.rs"))
    cmd = src("src/enc/command.rs")
    # thresholds of GetInsertLengthCode: `insertlen < K` in order, and the additive constants
    body = fn_body(cmd, "GetInsertLengthCode", "command.rs")
    th = nums_in(body, r"insertlen\s*<\s*" + LIT, "GetInsertLengthCode thresholds", 5)
    out.append("Definition ins_thresholds : list N := %s." % coq_list(th))
    subs = nums_in(body, r"insertlen\.wrapping_sub\(" + LIT + r"\)", "GetInsertLengthCode subs", 3)
    out.append("Definition ins_subs : list N := %s." % coq_list(subs))
    adds = nums_in(body, r"\.wrapping_add\(" + LIT + r"\)", "GetInsertLengthCode adds", 2)
    out.append("Definition ins_adds : list N := %s." % coq_list(adds))
    tail = nums_in(body, r"\n\s*" + LIT + r"\s+as\s+u16", "GetInsertLengthCode tail codes", 3)
    out.append("Definition ins_tailcodes : list N := %s." % coq_list(tail))
    body = fn_body(cmd, "GetCopyLengthCode", "command.rs")
    th = nums_in(body, r"copylen\s*<\s*" + LIT, "GetCopyLengthCode thresholds", 3)
    out.append("Definition copy_thresholds : list N := %s." % coq_list(th))
    subs = nums_in(body, r"copylen\.wrapping_sub\(" + LIT + r"\)", "GetCopyLengthCode subs", 4)
    out.append("Definition copy_subs : list N := %s." % coq_list(subs))
    adds = nums_in(body, r"\.wrapping_add\(" + LIT + r"\)", "GetCopyLengthCode adds", 2)
    out.append("Definition copy_adds : list N := %s." % coq_list(adds))
    tail = nums_in(body, r"\n\s*" + LIT + r"\s+as\s+u16", "GetCopyLengthCode tail codes", 1)
    out.append("Definition copy_tailcodes : list N := %s." % coq_list(tail))
    body = fn_body(cmd, "combine_length_codes", "command.rs")
    magic = nums_in(body, r"\(\s*" + LIT + r"\s*>>\s*sub_offset", "combine_length_codes magic", 1)
    out.append("Definition combine_magic : N := %d." % magic[0])
    consts = nums_in(body, LIT, "combine_length_codes literals")
    out.append("Definition combine_literals : list N := %s." % coq_list(consts))
    body = fn_body(b, "BlockLengthPrefixCode", "brotli_bit_stream.rs")
    bl = nums_in(body, r"len\s*>=\s*" + LIT, "BlockLengthPrefixCode thresholds", 3)
    out.append("Definition blen_thresholds : list N := %s." % coq_list(bl))
    bs = nums_in(body, r"\n\s*" + LIT + r"\s*\n", "BlockLengthPrefixCode starts", 4)
    out.append("Definition blen_starts : list N := %s." % coq_list(bs))
    body = fn_body(cmd, "ComputeDistanceCode", "command.rs")
    dm = nums_in(body, r"\(\s*" + LIT + r"\s*>>\s*\(4usize\)", "ComputeDistanceCode magics", 2)
    out.append("Definition dist_short_magics : list N := %s." % coq_list(dm))
    body = fn_body(cmd, "distance_index_and_offset", "command.rs")
    tm = re.search(r"let table[^=]*=\s*\[(.*?)\];", body, re.S)
    if not tm:
        raise GenError("distance_index_and_offset: table not found")
    pairs = re.findall(r"\(\s*(\d+)\s*,\s*(-?\d+)\s*\)", tm.group(1))
    if len(pairs) != 16:
        raise GenError("distance_index_and_offset: table has %d entries" % len(pairs))
    out.append("Definition short_dist_table : list (N * Z) := [%s]." % "; ".join("(%s%%N, (%s)%%Z)" % p for p in pairs))
    return out


def fn_body_any(text, name, anchor):
    """like fn_body but tolerant of nested generic parameter lists."""
    m = re.search(r"fn\s+" + re.escape(name) + r"\b", text)
    if not m:
        raise GenError("%s: fn %s not found" % (anchor, name))
    i = text.index("{", m.end())
    depth = 0
    for j in range(i, len(text)):
        if text[j] == "{":
            depth += 1
        elif text[j] == "}":
            depth -= 1
            if depth == 0:
                return text[m.start():j + 1]
    raise GenError("%s: fn %s unbalanced" % (anchor, name))


def gen_huffman():
    """C17: literal tables and thresholds of entropy_encode.rs and of the prefix-code
    serialisers in brotli_bit_stream.rs."""
    out = []
    e = src("src/enc/entropy_encode.rs")
    body = fn_body(e, "SortHuffmanTreeItems", "entropy_encode.rs")
    out.append("Definition shell_gaps : list N := %s." % coq_list(static_array(body, "gaps", "SortHuffmanTreeItems")))
    out.append("Definition sort_small_threshold : N := %d." % nums_in(body, r"if\s+n\s*<\s*" + LIT + r"\s*\{\s*for", "SortHuffmanTreeItems small threshold", 1)[0])
    g0 = re.search(r"if\s+n\s*<\s*" + LIT + r"\s*\{\s*" + LIT + r"\s*\}\s*else\s*\{\s*" + LIT + r"\s*\}", body)
    if not g0:
        raise GenError("SortHuffmanTreeItems: first-gap selection not found")
    out.append("Definition sort_gap_threshold : N := %d." % parse_num(g0.group(1), "gap threshold"))
    out.append("Definition sort_gap_start_small : N := %d." % parse_num(g0.group(2), "gap start"))
    out.append("Definition sort_gap_start_large : N := %d." % parse_num(g0.group(3), "gap start"))
    body = fn_body(e, "BrotliReverseBits", "entropy_encode.rs")
    out.append("Definition kLut : list N := %s." % coq_list(static_array(body, "kLut", "BrotliReverseBits")))
    body = fn_body(e, "BrotliWriteHuffmanTree", "entropy_encode.rs")
    out.append("Definition rle_min_length : N := %d." % nums_in(body, r"if\s+length\s*>\s*" + LIT, "BrotliWriteHuffmanTree length threshold", 1)[0])
    out.append("Definition rle_initial_previous : N := %d." % nums_in(body, r"previous_value\s*:\s*u8\s*=\s*" + LIT, "BrotliWriteHuffmanTree initial previous value", 1)[0])
    body = fn_body(e, "BrotliWriteHuffmanTreeRepetitions", "entropy_encode.rs")
    out.append("Definition rep_nonzero_consts : list N := %s." % coq_list(nums_in(body, r"repetitions\s*(?:==|<)\s*" + LIT, "Repetitions thresholds", 3)
               + nums_in(body, r"repetitions\.wrapping_sub\(" + LIT + r"\)", "Repetitions subs", 4)
               + nums_in(body, r"=\s*" + LIT + r"\s*;\s*\n\s*extra_bits_data\[\*tree_size\]\s*=\s*\(repetitions", "Repetitions code", 1)
               + nums_in(body, r"repetitions\s*&\s*" + LIT, "Repetitions mask", 1)
               + nums_in(body, r"repetitions\s*>>=\s*" + LIT, "Repetitions shift", 1)))
    body = fn_body(e, "BrotliWriteHuffmanTreeRepetitionsZeros", "entropy_encode.rs")
    out.append("Definition rep_zero_consts : list N := %s." % coq_list(nums_in(body, r"repetitions\s*(?:==|<)\s*" + LIT, "RepetitionsZeros thresholds", 3)
               + nums_in(body, r"repetitions\.wrapping_sub\(" + LIT + r"\)", "RepetitionsZeros subs", 3)
               + nums_in(body, r"=\s*" + LIT + r"\s*;\s*\n\s*extra_bits_data\[\*tree_size\]\s*=\s*\(repetitions", "RepetitionsZeros code", 1)
               + nums_in(body, r"repetitions\s*&\s*" + LIT, "RepetitionsZeros mask", 1)
               + nums_in(body, r"repetitions\s*>>=\s*" + LIT, "RepetitionsZeros shift", 1)))
    b = src("src/enc/brotli_bit_stream.rs")
    body = fn_body(b, "BrotliStoreHuffmanTreeOfHuffmanTreeToBitMask", "brotli_bit_stream.rs")
    for n in ("kStorageOrder", "kHuffmanBitLengthHuffmanCodeSymbols", "kHuffmanBitLengthHuffmanCodeBitLengths"):
        out.append("Definition %s : list N := %s." % (n, coq_list(static_array(body, n, "StoreHuffmanTreeOfHuffmanTreeToBitMask"))))
    body = fn_body(b, "StoreStaticCodeLengthCode", "brotli_bit_stream.rs")
    m = re.search(r"BrotliWriteBits\(\s*" + LIT + r"\s*,\s*" + LIT, body)
    if not m:
        raise GenError("StoreStaticCodeLengthCode: constants not found")
    out.append("Definition static_cl_code_nbits : N := %d." % parse_num(m.group(1), "StoreStaticCodeLengthCode"))
    out.append("Definition static_cl_code_bits : N := %d." % parse_num(m.group(2), "StoreStaticCodeLengthCode"))
    body = fn_body(b, "BrotliStoreHuffmanTree", "brotli_bit_stream.rs")
    m = re.search(r"BrotliCreateHuffmanTree\(\s*&mut huffman_tree_histogram,\s*" + LIT + r",\s*" + LIT, body)
    if not m:
        raise GenError("BrotliStoreHuffmanTree: tree limit not found")
    out.append("Definition cl_alphabet_size : N := %d." % parse_num(m.group(1), "cl alphabet"))
    out.append("Definition cl_tree_limit : N := %d." % parse_num(m.group(2), "cl limit"))
    body = fn_body(b, "BuildAndStoreHuffmanTree", "brotli_bit_stream.rs")
    m = re.search(r"BrotliCreateHuffmanTree\(\s*histogram,\s*histogram_length,\s*" + LIT, body)
    if not m:
        raise GenError("BuildAndStoreHuffmanTree: tree limit not found")
    out.append("Definition exact_tree_limit : N := %d." % parse_num(m.group(1), "exact limit"))
    body = fn_body_any(b, "BrotliBuildAndStoreHuffmanTreeFast", "brotli_bit_stream.rs")
    m = re.search(r"BrotliSetDepth\([^;]*?depth,\s*" + LIT + r"\s*\)", body, re.S)
    if not m:
        raise GenError("BrotliBuildAndStoreHuffmanTreeFast: depth limit not found")
    out.append("Definition fast_tree_limit : N := %d." % parse_num(m.group(1), "fast limit"))
    c = src("src/enc/constants.rs")
    for n in ("kZeroRepsBits", "kZeroRepsDepth", "kNonZeroRepsBits", "kNonZeroRepsDepth", "kCodeLengthBits", "kCodeLengthDepth"):
        out.append("Definition %s : list N := %s." % (n, coq_list(static_array(c, n, "constants.rs"))))
    return out


# ---------------------------------------------------------------------------------
# section Header (C15): SanitizeParams, EncodeWindowBits, ensure_initialized, update_size_hint
# (encode.rs); BrotliWriteMetadataMetaBlock, encode_base_128 (brotli_bit_stream.rs); VERSION
# (lib.rs); parameter ids (parameters.rs); defaults of BrotliEncoderInitParams.
# ---------------------------------------------------------------------------------
WLIT = r"(?<![\w.])" + LIT + r"(?![\w.])"


def fn_body_any(text, name, anchor):
    """like fn_body, but also for functions whose generic parameter list contains `>` (closure
    bounds): the body is taken from the first `{` after `fn name<` / `fn name(`."""
    m = re.search(r"fn\s+" + re.escape(name) + r"\s*[<(]", text)
    if not m:
        raise GenError("%s: fn %s not found" % (anchor, name))
    i = text.index("{", m.end())
    depth = 0
    for j in range(i, len(text)):
        if text[j] == "{":
            depth += 1
        elif text[j] == "}":
            depth -= 1
            if depth == 0:
                return text[m.start():j + 1]
    raise GenError("%s: fn %s unbalanced" % (anchor, name))


def body_after_signature(body):
    """function text from the opening brace of the body (skips literals inside the signature)."""
    return body[body.index("{"):]


def gen_header():
    out = []
    e = src("src/enc/encode.rs")
    b = src("src/enc/brotli_bit_stream.rs")
    # --- SanitizeParams
    body = body_after_signature(fn_body(e, "SanitizeParams", "encode.rs"))
    m = re.search(r"\w+\.quality\s*=\s*min\(\s*" + LIT + r"\s*,\s*max\(\s*" + LIT + r"\s*,\s*\w+\.quality\s*\)\s*\)", body)
    if not m:
        raise GenError("SanitizeParams: quality clamp `min(K, max(K, params.quality))` not found")
    out.append("Definition sanitize_qmax : Z := %d." % parse_num(m.group(1), "SanitizeParams qmax"))
    out.append("Definition sanitize_qmin : Z := %d." % parse_num(m.group(2), "SanitizeParams qmin"))
    cmps = re.findall(r"\w+\.lgwin\s*([<>]=?)\s*" + LIT, body)
    if [c[0] for c in cmps] != ["<", ">", ">"]:
        raise GenError("SanitizeParams: expected comparisons lgwin < K, lgwin > K, lgwin > K, found %r" % (cmps,))
    out.append("Definition sanitize_lgwin_cmp : list Z := %s." % coq_zlist([parse_num(c[1], "SanitizeParams cmp") for c in cmps]))
    asg = nums_in(body, r"\w+\.lgwin\s*=\s*" + LIT + r"\s*;", "SanitizeParams lgwin assignments", 3)
    out.append("Definition sanitize_lgwin_set : list Z := %s." % coq_zlist(asg))
    if not re.search(r"if\s+\w+\.catable\s*\{\s*\w+\.appendable\s*=\s*true\s*;\s*\}", body):
        raise GenError("SanitizeParams: `if params.catable { params.appendable = true; }` not found")
    # --- ensure_initialized: quality == 0 || quality == 1 -> lgwin = max(lgwin, 18)
    body = body_after_signature(fn_body(e, "ensure_initialized", "encode.rs"))
    m = re.search(r"if\s+self\.params\.quality\s*==\s*" + LIT + r"\s*\|\|\s*self\.params\.quality\s*==\s*" + LIT + r"\s*\{\s*(\w+)\s*=\s*max\(\s*\3\s*,\s*" + LIT + r"\s*\)", body)
    if not m:
        raise GenError("ensure_initialized: `if quality == K || quality == K { lgwin = max(lgwin, K)` not found")
    out.append("Definition fast_qualities : list Z := %s." % coq_zlist([parse_num(m.group(1), "ei"), parse_num(m.group(2), "ei")]))
    out.append("Definition fast_min_lgwin : Z := %d." % parse_num(m.group(4), "ei"))
    # --- EncodeWindowBits: every literal of the body, in order
    body = body_after_signature(fn_body(e, "EncodeWindowBits", "encode.rs"))
    lits = nums_in(body, WLIT, "EncodeWindowBits literals", 19)
    out.append("Definition ewb_literals : list Z := %s." % coq_zlist(lits))
    # --- compress_stream: which configurations take the quality-0/1 fast path
    body = body_after_signature(fn_body_any(e, "compress_stream", "encode.rs"))
    m = re.search(r"if\s*\(\s*self\.params\.quality\s*==\s*" + LIT + r"\s*\|\|\s*self\.params\.quality\s*==\s*" + LIT +
                  r"\s*\)((?:\s*&&\s*!\s*self\.params\.\w+)*)\s*\{(?:\s*//[^\n]*\n)*\s*return\s+self\s*\.\s*compress_stream_fast", body)
    if not m:
        raise GenError("compress_stream: fast-path dispatch `if (quality == K || quality == K) && !flag.. { return self.compress_stream_fast` not found")
    if [parse_num(m.group(1), "cs"), parse_num(m.group(2), "cs")] != [0, 1]:
        raise GenError("compress_stream: fast-path qualities are not 0 and 1")
    flags = re.findall(r"!\s*self\.params\.(\w+)", m.group(3))
    for f in flags:
        if f not in ("catable", "magic_number"):
            raise GenError("compress_stream: fast-path dispatch tests an unmodelled flag %r" % f)
    out.append("Definition fast_path_requires_not_catable : bool := %s." % ("true" if "catable" in flags else "false"))
    out.append("Definition fast_path_requires_not_magic : bool := %s." % ("true" if "magic_number" in flags else "false"))
    # --- update_size_hint
    body = body_after_signature(fn_body(e, "update_size_hint", "encode.rs"))
    sh = nums_in(body, r"let\s+\w+\s*:\s*u32\s*=\s*1u32\s*<<\s*" + LIT, "update_size_hint limit", 1)
    out.append("Definition size_hint_limit_log : N := %d." % sh[0])
    # --- BrotliWriteMetadataMetaBlock
    body = body_after_signature(fn_body(b, "BrotliWriteMetadataMetaBlock", "brotli_bit_stream.rs"))
    pairs = re.findall(r"BrotliWriteBits\(\s*" + LIT + r"\s*,\s*" + LIT + r"\s*,\s*storage_ix", body)
    if len(pairs) != 4:
        raise GenError("BrotliWriteMetadataMetaBlock: expected 4 literal BrotliWriteBits calls, found %d" % len(pairs))
    out.append("Definition meta_hdr_writes : list (N * N) := [%s]." % "; ".join(
        "(%d%%N, %d%%N)" % (parse_num(a, "meta"), parse_num(v, "meta")) for a, v in pairs))
    m = re.search(r"BrotliWriteBits\(\s*" + LIT + r"\s*,\s*" + LIT + r"\s*\+\s*\w+\s+as\s+u64", body)
    if not m:
        raise GenError("BrotliWriteMetadataMetaBlock: length write `BrotliWriteBits(K, K + size_hint_count as u64` not found")
    out.append("Definition meta_len_nbits : N := %d." % parse_num(m.group(1), "meta len"))
    out.append("Definition meta_len_base : N := %d." % parse_num(m.group(2), "meta len"))
    trip = re.findall(r"\[\s*" + LIT + r"\s*,\s*" + LIT + r"\s*,\s*" + LIT + r"\s*\]", body)
    if len(trip) != 3:
        raise GenError("BrotliWriteMetadataMetaBlock: expected 3 magic byte triples, found %d" % len(trip))
    if not re.search(r"if\s+\w+\.catable\s*&&\s*!\w+\.use_dictionary\s*\{[^}]*\}\s*else\s+if\s+\w+\.appendable\s*\{", body):
        raise GenError("BrotliWriteMetadataMetaBlock: mode selection `if catable && !use_dictionary {..} else if appendable {..}` not found")
    for name, t in zip(("magic_catable", "magic_appendable", "magic_plain"), trip):
        out.append("Definition %s : list N := %s." % (name, coq_list([parse_num(x, "magic") for x in t])))
    n8 = len(re.findall(r"BrotliWriteBits\(\s*8u8\s*,\s*u64::from\(", body))
    if n8 != 3:
        raise GenError("BrotliWriteMetadataMetaBlock: expected 3 byte-wise writes (magic, VERSION, size hint), found %d" % n8)
    # --- encode_base_128
    out.append("Definition MAX_SIZE_ENCODING : N := %d." % const(b, "MAX_SIZE_ENCODING", "brotli_bit_stream.rs"))
    body = body_after_signature(fn_body(b, "encode_base_128", "brotli_bit_stream.rs"))
    m1 = nums_in(body, r"\w+\s*&\s*" + LIT, "encode_base_128 mask", 1)
    m2 = nums_in(body, r"\w+\s*>>=\s*" + LIT, "encode_base_128 shift", 1)
    m3 = nums_in(body, r"\|=\s*" + LIT, "encode_base_128 continuation bit", 1)
    out.append("Definition b128_mask : N := %d." % m1[0])
    out.append("Definition b128_shift : N := %d." % m2[0])
    out.append("Definition b128_cont : N := %d." % m3[0])
    out.append("Definition VERSION : N := %d." % const(src("src/lib.rs"), "VERSION", "lib.rs"))
    # --- parameter ids
    pr = src("src/enc/parameters.rs")
    for n in ("BROTLI_PARAM_QUALITY", "BROTLI_PARAM_LGWIN", "BROTLI_PARAM_SIZE_HINT", "BROTLI_PARAM_LARGE_WINDOW",
              "BROTLI_PARAM_CATABLE", "BROTLI_PARAM_APPENDABLE", "BROTLI_PARAM_MAGIC_NUMBER"):
        m = re.search(r"\b" + n + r"\s*=\s*" + LIT + r"\s*,", pr)
        if not m:
            raise GenError("parameters.rs: %s not found" % n)
        out.append("Definition %s : N := %d." % (n, parse_num(m.group(1), n)))
    # --- defaults
    body = body_after_signature(fn_body(e, "BrotliEncoderInitParams", "encode.rs"))
    for fld, name in (("quality", "default_quality"), ("lgwin", "default_lgwin")):
        v = nums_in(body, r"\b" + fld + r"\s*:\s*" + LIT + r"\s*,", "BrotliEncoderInitParams " + fld, 1)
        out.append("Definition %s : Z := %d." % (name, v[0]))
    for fld in ("large_window", "catable", "use_dictionary", "appendable", "magic_number"):
        m = re.search(r"\b" + fld + r"\s*:\s*(true|false)\s*,", body)
        if not m:
            raise GenError("BrotliEncoderInitParams: %s not found" % fld)
        out.append("Definition default_%s : bool := %s." % (fld, m.group(1)))
    return out


# ---------------------------------------------------------------------------------
# section Bound (C08): BrotliEncoderMaxCompressedSize(+Multi), MakeUncompressedStream,
# BrotliEncodeMlen's nibble rule and the expansion guard of WriteMetaBlockInternal (encode.rs /
# brotli_bit_stream.rs)
# ---------------------------------------------------------------------------------
def gen_bound():
    out = []
    e = src("src/enc/encode.rs")
    b = src("src/enc/brotli_bit_stream.rs")
    body = body_after_signature(fn_body(e, "BrotliEncoderMaxCompressedSize", "encode.rs"))
    out.append("Definition bound_magic_size : N := %d." % nums_in(body, r"let\s+\w+\s*=\s*" + LIT + r"\s*;", "MaxCompressedSize magic_size", 1)[0])
    out.append("Definition bound_block_shift : N := %d." % nums_in(body, r":\s*usize\s*=\s*\w+\s*>>\s*" + LIT, "MaxCompressedSize block shift", 1)[0])
    out.append("Definition bound_tail_shift : N := %d." % nums_in(body, r"\.wrapping_sub\(\s*\w+\s*<<\s*" + LIT + r"\s*\)", "MaxCompressedSize tail shift", 1)[0])
    m = re.search(r"if\s+\w+\s*>\s*\(\s*1i32\s*<<\s*" + LIT + r"\s*\)\s*as\s+usize\s*\{\s*" + LIT + r"\s*\}\s*else\s*\{\s*" + LIT + r"\s*\}", body)
    if not m:
        raise GenError("MaxCompressedSize: tail overhead `if tail > (1i32 << K) as usize { K } else { K }` not found")
    out.append("Definition bound_tail_log : N := %d." % parse_num(m.group(1), "mcs"))
    out.append("Definition bound_tail_overheads : list N := %s." % coq_list([parse_num(m.group(2), "mcs"), parse_num(m.group(3), "mcs")]))
    m = re.search(r"\(\s*" + LIT + r"\s*\)\s*\.wrapping_add\(\s*\(\s*" + LIT + r"\s*\)\.wrapping_mul\(\s*\w+\s*\)\s*\)\s*\.wrapping_add\(\s*\w+\s*\)\s*\.wrapping_add\(\s*" + LIT + r"\s*\)", body)
    if not m:
        raise GenError("MaxCompressedSize: overhead `(K).wrapping_add((K).wrapping_mul(blocks)).wrapping_add(tail_overhead).wrapping_add(K)` not found")
    out.append("Definition bound_overhead_consts : list N := %s." % coq_list([parse_num(m.group(i), "mcs") for i in (1, 2, 3)]))
    m = re.search(r"if\s+\w+\s*==\s*0usize\s*\{\s*return\s+" + LIT + r"\s*\+\s*\w+\s*;", body)
    if not m:
        raise GenError("MaxCompressedSize: `if input_size == 0usize { return K + magic_size; }` not found")
    out.append("Definition bound_empty_base : N := %d." % parse_num(m.group(1), "mcs"))
    if not re.search(r"if\s+(\w+)\s*<\s*\w+\s*\{\s*0usize\s*\}\s*else\s*\{\s*\1\s*\+\s*\w+\s*\}", body):
        raise GenError("MaxCompressedSize: `if result < input_size { 0usize } else { result + magic_size }` not found")
    body = body_after_signature(fn_body(e, "BrotliEncoderMaxCompressedSizeMulti", "encode.rs"))
    out.append("Definition bound_per_thread : N := %d." % nums_in(body, r"\*\s*" + LIT, "MaxCompressedSizeMulti per thread", 1)[0])
    # --- MakeUncompressedStream
    body = body_after_signature(fn_body(e, "MakeUncompressedStream", "encode.rs"))
    lits = nums_in(body, r"output\[\w+\]\s*=\s*" + LIT + r"\s*;", "MakeUncompressedStream literal bytes", 4)
    out.append("Definition mus_empty_stream : list N := %s." % coq_list(lits[0:1]))
    out.append("Definition mus_prologue : list N := %s." % coq_list(lits[1:3]))
    out.append("Definition mus_epilogue : list N := %s." % coq_list(lits[3:4]))
    sh = nums_in(body, r"1u32\s*<<\s*" + LIT, "MakeUncompressedStream thresholds")
    if sh != [24, 24, 16, 20]:
        raise GenError("MakeUncompressedStream: thresholds 1u32 << K are %r, expected [24, 24, 16, 20]" % (sh,))
    out.append("Definition mus_chunk_log : N := %d." % sh[0])
    out.append("Definition mus_nibble_logs : list N := %s." % coq_list(sh[2:4]))
    m = re.search(r"nibbles\s*<<\s*" + LIT + r"\s*\|\s*\w+\.wrapping_sub\(\s*" + LIT + r"\s*\)\s*<<\s*" + LIT + r"\s*\|\s*1u32\s*<<\s*\(\s*" + LIT + r"\s*\)\.wrapping_add\(\s*\(\s*" + LIT + r"\s*\)\.wrapping_mul\(\s*nibbles\s*\)\s*\)", body)
    if not m:
        raise GenError("MakeUncompressedStream: header word `nibbles << K | chunk_size.wrapping_sub(K) << K | 1u32 << (K).wrapping_add((K).wrapping_mul(nibbles))` not found")
    out.append("Definition mus_bits_consts : list N := %s." % coq_list([parse_num(m.group(i), "mus") for i in range(1, 6)]))
    m = re.search(r"if\s+\w+\s*>\s*1u32\s*<<\s*20\s*\{\s*" + LIT + r"\s*\}\s*else\s*\{\s*" + LIT + r"\s*\}", body)
    if not m:
        raise GenError("MakeUncompressedStream: nibble choice `if chunk_size > 1u32 << 20 { K } else { K }` not found")
    out.append("Definition mus_nibble_values : list N := %s." % coq_list([parse_num(m.group(2), "mus"), parse_num(m.group(1), "mus")]))
    # --- encoder_compress: the two decisions of the fallback (hand-modelled in model/Bound.v; anchored
    #     here so that a reshaped condition is not silently covered by the old model)
    body = body_after_signature(fn_body_any(e, "encoder_compress", "encode.rs"))
    if not re.search(r"if\s+!\s*result\s*\|\|\s*(\w+)\s*!=\s*0\s*&&\s*\(\s*\*\s*encoded_size\s*>\s*\1\s*\)\s*\{", body):
        raise GenError("encoder_compress: fallback trigger `if !result || max_out_size != 0 && (*encoded_size > max_out_size) {` not found")
    if not re.search(r"let\s+(\w+)\s*:\s*usize\s*=\s*BrotliEncoderMaxCompressedSize\(\s*input_size\s*\)\s*;", body):
        raise GenError("encoder_compress: `let max_out_size: usize = BrotliEncoderMaxCompressedSize(input_size);` not found")
    if not re.search(r"if\s+(\w+)\s*==\s*0\s*\{\s*return\s+false\s*;\s*\}\s*if\s+(\w+)\s*>=\s*\1\s*\{\s*\*\s*encoded_size\s*=\s*MakeUncompressedStream\(", body):
        raise GenError("encoder_compress: fallback admission `if max_out_size == 0 { return false; } if out_size >= max_out_size { *encoded_size = MakeUncompressedStream(` not found")
    out.append("Definition oneshot_fallback_needs_bound_capacity : bool := true.")
    # --- the expansion guard of WriteMetaBlockInternal: `bytes + K + saved_byte_location < (*storage_ix >> 3)`
    body = body_after_signature(fn_body_any(e, "WriteMetaBlockInternal", "encode.rs"))
    g = nums_in(body, r"if\s+bytes\s*\+\s*" + LIT + r"\s*\+\s*saved_byte_location\s*<\s*\(\s*\*storage_ix\s*>>\s*3\s*\)", "WriteMetaBlockInternal guard", 1)
    out.append("Definition guard_slack : N := %d." % g[0])
    # --- BrotliEncodeMlen: mnibbles = (if lg < 16 { 16 } else { lg + 3 }) / 4
    body = body_after_signature(fn_body(b, "BrotliEncodeMlen", "brotli_bit_stream.rs"))
    m = re.search(r"if\s+lg\s*<\s*" + LIT + r"\s*\{\s*" + LIT + r"\s*\}\s*else\s*\{\s*lg\.wrapping_add\(\s*" + LIT + r"\s*\)\s*\}\s*\)\s*\.wrapping_div\(\s*" + LIT + r"\s*\)", body)
    if not m:
        raise GenError("BrotliEncodeMlen: `(if lg < K { K } else { lg.wrapping_add(K) }).wrapping_div(K)` not found")
    out.append("Definition mlen_consts : list N := %s." % coq_list([parse_num(m.group(i), "mlen") for i in range(1, 5)]))
    return out


SECTIONS = {"Arith": gen_arith, "Header": gen_header, "Bound": gen_bound}
SECTIONS["Huffman"] = gen_huffman


def gen_pool():
    """C07: capacity of FixedQueue, the back-pressure comparisons of worker_pool.rs and the
    initial WorkQueue, as the code has them now."""
    out = []
    fqs = src("src/enc/fixed_queue.rs")
    out.append("Definition MAX_THREADS : N := %d." % const(fqs, "MAX_THREADS", "fixed_queue.rs"))
    if not re.search(r"data\s*:\s*\[\s*Option<T>\s*;\s*MAX_THREADS\s*\]", fqs):
        raise GenError("fixed_queue.rs: `data: [Option<T>; MAX_THREADS]` not found")
    body = fn_body(fqs, "new", "fixed_queue.rs")
    m = re.search(r"data\s*:\s*\[(.*?)\]", body, re.S)
    if not m:
        raise GenError("fixed_queue.rs: data initialiser of FixedQueue::new not found")
    toks = [t.strip() for t in m.group(1).split(",") if t.strip()]
    if any(t != "None" for t in toks):
        raise GenError("fixed_queue.rs: FixedQueue::new initialises data with something other than None")
    out.append("Definition FQ_NEW_NONES : N := %d." % len(toks))
    for fld in ("size", "start"):
        v = nums_in(body, r"\b" + fld + r"\s*:\s*" + LIT + r"\s*,", "FixedQueue::new " + fld, 1)
        out.append("Definition FQ_NEW_%s : N := %d." % (fld.upper(), v[0]))
    wp = src("src/enc/worker_pool.rs")
    cmp_re = r"jobs\.size\(\)\s*\+\s*local_queue\.num_in_progress\s*\+\s*local_queue\.results\.size\(\)\s*(<=|<)\s*MAX_THREADS"
    for fn, name in (("spawn", "spawn_admits_equal"), ("_push_job", "push_job_admits_equal")):
        b = fn_body(wp, fn, "worker_pool.rs")
        ms = re.findall(cmp_re, b)
        if len(ms) != 1:
            raise GenError("worker_pool.rs: back-pressure comparison of %s not found" % fn)
        out.append("Definition %s : bool := %s." % (name, "true" if ms[0] == "<=" else "false"))
    b = fn_body(wp, "default", "worker_pool.rs")
    for fld in ("num_in_progress", "cur_work_id"):
        v = nums_in(b, r"\b" + fld + r"\s*:\s*" + LIT + r"\s*,", "WorkQueue::default " + fld, 1)
        out.append("Definition WQ_INIT_%s : N := %d." % (fld, v[0]))
    for fld in ("immediate_shutdown", "shutdown"):
        m = re.search(r"\b" + fld + r"\s*:\s*(true|false)\s*,", b)
        if not m:
            raise GenError("WorkQueue::default: %s not found" % fld)
        out.append("Definition WQ_INIT_%s : bool := %s." % (fld, m.group(1)))
    return out


SECTIONS["Pool"] = gen_pool


def gen_hashers():
    """C19: constants of the match-index kinds (tools/gen_hashers.py)."""
    import gen_hashers as _gh
    return _gh.generate()


SECTIONS["Hashers"] = gen_hashers


def gen_io():
    """C11: constants / structural anchors of the reader, writer and copy adapters (tools/gen_io.py)."""
    import gen_io as _gi
    return _gi.generate()


SECTIONS["IO"] = gen_io


def gen_alloc():
    """C09: release sites and table sizes of the allocator protocol (tools/gen_alloc.py)."""
    import gen_alloc as _ga
    return _ga.generate()


SECTIONS["Alloc"] = gen_alloc


def gen_format():
    """C01: configuration / ring-buffer / context-table constants (tools/gen_format.py)."""
    import gen_format as _gf
    return _gf.generate()


SECTIONS["Format"] = gen_format


def gen_multi():
    """C02/C06: constants and structural anchors of the multi-threaded orchestration (tools/gen_multi.py)."""
    import gen_multi as _gm
    return _gm.generate()


SECTIONS["Multi"] = gen_multi


def render(section):
    lines = SECTIONS[section]()
    hdr = ["(* GENERATED by tools/gen_tables.py from the repository's src/ -- do not edit. *)",
           "From Coq Require Import List NArith ZArith.", "Import ListNotations.", ""]
    return "\n".join(hdr + lines) + "\n"


def write_if_changed(path, text):
    try:
        with open(path) as f:
            if f.read() == text:
                return False
    except FileNotFoundError:
        pass
    with open(path, "w") as f:
        f.write(text)
    return True


def regenerate(outdir, sections=None):
    """returns (changed: list of files, errors: list of str)"""
    changed, errors = [], []
    for s in (SECTIONS if sections is None else sections):
        path = os.path.join(outdir, "Gen%s.v" % s)
        try:
            if write_if_changed(path, render(s)):
                changed.append(path)
        except GenError as e:
            errors.append("Gen%s: %s" % (s, e))
    return changed, errors


if __name__ == "__main__":
    here = os.path.dirname(os.path.abspath(__file__))
    ch, er = regenerate(os.path.join(here, "..", "coq", "gen"))
    for c in ch:
        print("regenerated", c)
    for e in er:
        print("GENERROR", e)
    sys.exit(1 if er else 0)
