#!/usr/bin/env python3
"""usage: manifest_add.py <entry.json>  -- add/replace one check entry, keep not_applicable consistent"""
import json, sys
m = json.load(open('/verif/MANIFEST.json'))
e = json.load(open(sys.argv[1]))
for k, v in (("quick_cmd", "./check %s --tier quick"), ("thorough_cmd", "./check %s --tier thorough"), ("evidence_file", "evidence/%s.json"),
             ("replay_cmd_template", "./check %s --replay {path}")):
    e.setdefault(k, v % e["property_id"])
e.setdefault("engine", "coq-proof+correspondence")
m['checks'] = [c for c in m['checks'] if c['property_id'] != e['property_id']] + [e]
m['checks'].sort(key=lambda c: c['property_id'])
claimed = {c['property_id'] for c in m['checks']}
m['not_applicable'] = [x for x in m['not_applicable'] if x['property_id'] not in claimed]
m['engines'][0]['serves_properties'] = sorted(claimed)
json.dump(m, open('/verif/MANIFEST.json', 'w'), indent=1)
print("claimed:", sorted(claimed))
