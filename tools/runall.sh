#!/bin/bash
# runs every registered check (quick tier) on the unchanged tree and prints one verdict line each
cd /verif
for p in $(python3 -c "import json; print(' '.join(c['property_id'] for c in json.load(open('MANIFEST.json'))['checks']))"); do
  s=$(date +%s)
  out=$(./check $p --tier ${TIER:-quick} --seed ${SEED:-1} 2>&1); rc=$?
  e=$(( $(date +%s) - s ))
  echo "$p exit=$rc ${e}s violations=$(echo "$out" | grep -c '^VIOLATION') known=$(echo "$out" | grep -c '^KNOWN-FINDING')"
done
