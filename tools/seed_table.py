#!/usr/bin/env python3
"""Regenerates the table of seeded changes in DESIGN.md (between the markers SEED-TABLE-BEGIN/END)
from /verif/seeded/*/meta.json."""
import glob, json, os, re
ROOT = os.path.dirname(os.path.dirname(os.path.abspath(__file__)))


def short(t, n):
    t = re.sub(r"\s+", " ", str(t or "")).strip()
    return t if len(t) <= n else t[:n - 1].rsplit(" ", 1)[0] + " ..."


rows = []
for d in sorted(glob.glob(os.path.join(ROOT, "seeded", "*"))):
    mp = os.path.join(d, "meta.json")
    if not os.path.exists(mp):
        continue
    m = json.load(open(mp))
    cb = str(m.get("caught_by", ""))
    missed = bool(re.search(r"\bMISSED\b|initially missed|missed at first", cb, re.I))
    rows.append((os.path.basename(d), short(m.get("file"), 110), short(m.get("what_changed"), 330), short(m.get("what_it_needs_to_manifest"), 260), short(cb, 700), missed))

out = []
for name, f, what, needs, cb, missed in rows:
    out.append("* **%s** (%s)%s  \n  *Change:* %s  \n  *Needs:* %s  \n  *Caught by:* %s" % (name, f, " — **missed by the first version of the check**" if missed else "", what, needs, cb))
text = "\n".join(out)
p = os.path.join(ROOT, "DESIGN.md")
s = open(p).read()
a, b = s.index("<!-- SEED-TABLE-BEGIN -->"), s.index("<!-- SEED-TABLE-END -->")
s = s[:a] + "<!-- SEED-TABLE-BEGIN -->\n" + text + "\n" + s[b:]
open(p, "w").write(s)
print(len(rows), "seeds;", sum(1 for r in rows if r[5]), "missed at first")
