#!/usr/bin/env python3
"""usage: seedkeep.py <prop> <k> <caught-by text>
Confirms seed k of /tmp/seed/<prop>-out in the scratch worktree /tmp/seed/<prop> (demo fails with the
change, passes without; baseline 31+93 with the change) and stores it as /verif/seeded/<prop>-s<k>/."""
import json, os, re, shutil, subprocess, sys
prop, k, caught = sys.argv[1], int(sys.argv[2]), sys.argv[3]
out, wt = "/tmp/seed/%s-out" % prop, "/tmp/seed/%s" % prop
m = json.load(open(os.path.join(out, "meta.json")))
seeds = m["seeds"] if isinstance(m, dict) and "seeds" in m else m
if isinstance(seeds, dict):
    seeds = [seeds[x] for x in sorted(seeds)]
sd = seeds[k - 1]
def sh(cmd, **kw):
    return subprocess.run(cmd, shell=True, stdout=subprocess.PIPE, stderr=subprocess.STDOUT, text=True, **kw)
sh("git -C %s checkout -q -- . && git -C %s clean -fdq -e target" % (wt, wt))
def run_demo():
    cmd = re.sub(r"\s*\((?:create|mkdir)[^)]*\)", "", sd["demo_command"]).split("   #")[0].split("     #")[0]
    r = sh("mkdir -p %s/tests && " % wt + cmd, timeout=3000)
    tail = "\n".join(r.stdout.strip().split("\n")[-12:])
    return r.returncode, tail
rc_clean, out_clean = run_demo()
r = sh("git -C %s apply %s/seed%d.diff" % (wt, out, k))
assert r.returncode == 0, r.stdout
base = sh("cd %s && cargo test --workspace --no-fail-fast --offline --lib --bins 2>&1 | grep 'test result'" % wt, timeout=3000).stdout.strip()
rc_seed, out_seed = run_demo()
sh("git -C %s checkout -q -- . && git -C %s clean -fdq -e target" % (wt, wt))
ok = rc_clean == 0 and rc_seed != 0 and "31 passed" in base and "93 passed" in base and "failed; 0" not in base.replace("0 failed", "")
dst = "/verif/seeded/%s-s%d" % (prop, k + int(os.environ.get("SEED_OFFSET", "0")))   # second round: SEED_OFFSET=2
os.makedirs(dst, exist_ok=True)
shutil.copy("%s/seed%d.diff" % (out, k), os.path.join(dst, "patch.diff"))
for f in os.listdir(out):
    if re.match(r"demo%d(\.|_)" % k, f):
        shutil.copy(os.path.join(out, f), os.path.join(dst, f))
    elif os.path.isdir(os.path.join(out, f)) and f.endswith("_common"):
        shutil.copytree(os.path.join(out, f), os.path.join(dst, f), dirs_exist_ok=True)
json.dump({"property": prop, "seed": k, "file": sd.get("file"), "what_changed": sd.get("what_changed"),
           "why_it_breaks_the_property": sd.get("why_it_breaks_the_property"),
           "what_it_needs_to_manifest": sd.get("what_it_needs_to_manifest"),
           "demo_command": sd.get("demo_command"),
           "confirmed_by_coordinator": {"demo_exit_without_change": rc_clean, "demo_exit_with_change": rc_seed,
                                        "baseline_with_change": base, "demo_tail_with_change": out_seed[-1500:],
                                        "confirmed": ok},
           "checks_run": "tools/seedrun.sh patch.diff %s (private copy of /repo HEAD + patch, VERIF_REPO)" % prop,
           "caught_by": caught}, open(os.path.join(dst, "meta.json"), "w"), indent=1)
print(prop, k, "confirmed" if ok else "NOT CONFIRMED", "| clean rc", rc_clean, "| seeded rc", rc_seed, "|", base.replace("\n", " ; ")[:160])
