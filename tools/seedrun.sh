#!/bin/bash
# usage: tools/seedrun.sh <diff> <check ids...>
# applies a seeded change to a PRIVATE copy of /repo's HEAD (never to /repo itself), confirms that the
# crate builds and the 124 baseline tests pass, runs the named checks against the copy (VERIF_REPO),
# prints their verdict lines, and removes the copy.
set -u
DIFF=$(realpath "$1"); shift
WT=/tmp/seedrun-wt
exec 9>/tmp/seedrun.lock; flock 9
git -C /repo worktree remove --force "$WT" >/dev/null 2>&1; rm -rf "$WT"
git -C /repo worktree add -q --detach "$WT" HEAD || exit 2
cleanup() { git -C /repo worktree remove --force "$WT" >/dev/null 2>&1; rm -rf "$WT"; }
trap cleanup EXIT
if ! git -C "$WT" apply "$DIFF"; then echo "SEED-APPLY-FAILED"; exit 2; fi
echo "== baseline tests with the change:"
( cd "$WT" && CARGO_TARGET_DIR=/verif/build/alt/seedtest-target timeout 1500 cargo test --workspace --no-fail-fast --offline 2>&1 | grep "test result" | head -2 )
for c in "$@"; do
  echo "== check $c against the changed tree:"
  ( cd /verif && VERIF_REPO="$WT" timeout 3000 ./check "$c" --seed ${SEED:-1} 2>&1 | grep -E "VIOLATION|KNOWN-FINDING|^\[$c\]" | cut -c1-300 | head -${HEADN:-8}; echo "exit=${PIPESTATUS[0]}" )
done
