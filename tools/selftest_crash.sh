#!/bin/bash
# self-test of the machinery: with VERIF_INJECT_CRASH every sharded run of a harness / executable model loses the
# second half of its last shard's answers (as if the process had been killed).  Every check must then exit 1.
cd /verif
for p in "$@"; do
  out=$(VERIF_INJECT_CRASH=1 timeout 3000 ./check $p --seed ${SEED:-1} 2>&1); rc=$?
  echo "$p exit=$rc violations=$(echo "$out" | grep -c '^VIOLATION')"
done
