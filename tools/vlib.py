"""Shared machinery of the per-property checks (see DESIGN.md section 2.7)."""
import fcntl, hashlib, json, os, random, re, subprocess, sys, time

ROOT = os.path.dirname(os.path.dirname(os.path.abspath(__file__)))
REPO = os.environ.get("VERIF_REPO", "/repo")
COQ = os.path.join(ROOT, "coq")
BUILD = os.path.join(ROOT, "build")
TARGET = os.path.join(BUILD, "target")
GUARD = "brotli_verif"
NCPU = 16

ALT = None
if os.path.abspath(REPO) != "/repo":
    # seeded-change / mutation runs against a private copy of the repository: everything that is
    # rebuilt from the source (generated Coq files, .vo, extracted models, harness binaries) lives
    # in a private build area so that concurrent checks against /repo are never disturbed
    ALT = os.path.join(BUILD, "alt", hashlib.sha1(os.path.abspath(REPO).encode()).hexdigest()[:10])
    os.makedirs(ALT, exist_ok=True)
    # the extraction targets are rebuilt inside the private area (their side effect, model.ml, lives in its build directory)
    subprocess.run(["rsync", "-a", "--delete", "--exclude=extract/*.vo", "--exclude=extract/*.vos", "--exclude=extract/*.vok", "--exclude=extract/*.glob", os.path.join(ROOT, "coq") + "/", os.path.join(ALT, "coq") + "/"], check=False)
    COQ = os.path.join(ALT, "coq")
    BUILD = os.path.join(ALT, "build")
    TARGET = os.path.join(BUILD, "target")
    os.makedirs(BUILD, exist_ok=True)
    # start from the extracted models that are already built (they are rebuilt when sources change)
    if not os.path.exists(os.path.join(BUILD, "ocaml")) and os.path.exists(os.path.join(ROOT, "build", "ocaml")):
        subprocess.run(["rsync", "-a", os.path.join(ROOT, "build", "ocaml") + "/", os.path.join(BUILD, "ocaml") + "/"], check=False)

sys.path.insert(0, os.path.join(ROOT, "tools"))
import gen_tables  # noqa: E402

ALLOWED_AXIOMS = {
    # standard-library axioms that may appear under Print Assumptions (named in DESIGN.md section 5)
    "functional_extensionality_dep", "proof_irrelevance", "classic", "JMeq_eq",
    "Eqdep.Eq_rect_eq.eq_rect_eq", "eq_rect_eq", "propositional_extensionality",
}
FORBIDDEN = re.compile(r"\b(Admitted|admit|Axiom|Axioms|Parameter|Parameters|Conjecture|Conjectures|Hypothesis|Hypotheses|Variable|Variables)\b|Unset\s+Guard|bypass_check|type-in-type|impredicative-set|Admit\s+Obligations|Unset\s+Universe\s+Checking|Unset\s+Positivity")


class Lock:
    def __init__(self, name):
        os.makedirs(BUILD, exist_ok=True)
        self.path = os.path.join(BUILD, "." + name + ".lock")

    def __enter__(self):
        self.f = open(self.path, "w")
        fcntl.flock(self.f, fcntl.LOCK_EX)

    def __exit__(self, *a):
        fcntl.flock(self.f, fcntl.LOCK_UN)
        self.f.close()


def sh(cmd, timeout=1800, cwd=None, env=None, inp=None):
    e = dict(os.environ)
    e.update({"CARGO_NET_OFFLINE": "true"})
    if env:
        e.update(env)
    try:
        p = subprocess.run(cmd, shell=isinstance(cmd, str), cwd=cwd, env=e, input=inp,
                           stdout=subprocess.PIPE, stderr=subprocess.STDOUT, timeout=timeout, text=True)
        return p.returncode, p.stdout
    except subprocess.TimeoutExpired as ex:
        out = ex.stdout or ""
        if isinstance(out, bytes):
            out = out.decode("utf-8", "replace")
        return 124, out + "\nTIMEOUT after %ds" % timeout


# ----------------------------------------------------------------------------- Coq

def strip_comments(text):
    out, depth, i = [], 0, 0
    while i < len(text):
        if text.startswith("(*", i):
            depth += 1
            i += 2
        elif text.startswith("*)", i) and depth:
            depth -= 1
            i += 2
        else:
            if depth == 0:
                out.append(text[i])
            i += 1
    return "".join(out)


def coq_regen(sections=None):
    return gen_tables.regenerate(os.path.join(COQ, "gen"), sections)


def coq_makefile():
    """_CoqProject = fixed header + every coq/files.d/*.list (one list per property, so that
    parallel work never edits a shared file); Makefile regenerated when the list changes."""
    import glob
    hdr = ["-Q . V", "-arg -w -arg -notation-overridden,-deprecated-hint-without-locality,-deprecated-syntactic-definition"]
    files = []
    for lst in sorted(glob.glob(os.path.join(COQ, "files.d", "*.list"))):
        for ln in open(lst):
            ln = ln.strip()
            if ln and not ln.startswith("#") and ln not in files and os.path.exists(os.path.join(COQ, ln)):
                files.append(ln)
    text = "\n".join(hdr + files) + "\n"
    cp = os.path.join(COQ, "_CoqProject")
    mk = os.path.join(COQ, "Makefile")
    old = open(cp).read() if os.path.exists(cp) else None
    if old != text:
        open(cp, "w").write(text)
    if old != text or not os.path.exists(mk):
        sh("coq_makefile -f _CoqProject -o Makefile", cwd=COQ)


def coq_deps(target_v):
    """transitive .v dependencies (inside coq/) of a .v file, via coqdep."""
    rc, out = sh("coqdep -Q . V -sort %s 2>/dev/null" % target_v, cwd=COQ)
    # -sort prints all files in dependency order; fall back to parsing imports ourselves
    seen, todo = [], [target_v]
    while todo:
        f = todo.pop()
        if f in seen or not os.path.exists(os.path.join(COQ, f)):
            continue
        seen.append(f)
        txt = strip_comments(open(os.path.join(COQ, f)).read())
        for m in re.finditer(r"From\s+V\s+Require\s+(?:Import\s+|Export\s+)?(.*?)\.(?:\s|$)", txt, re.S):
            for mod in m.group(1).split():
                todo.append(mod.replace(".", "/") + ".v")
    return seen


def coq_audit(files):
    """forbidden commands in the given .v files (comments stripped); Section Variables are
    allowed only inside a Section."""
    problems = []
    for f in files:
        txt = strip_comments(open(os.path.join(COQ, f)).read())
        depth = 0
        for ln, line in enumerate(txt.split("\n"), 1):
            if re.match(r"\s*(Section|Module\s+Type)\s+\w+", line):
                depth += 1
            if re.match(r"\s*End\s+\w+\s*\.", line) and depth:
                depth -= 1
            for m in FORBIDDEN.finditer(line):
                w = m.group(0)
                if w in ("Variable", "Variables", "Hypothesis", "Hypotheses") and depth > 0:
                    continue
                if w == "admit" and re.search(r"\badmit\b", line) is None:
                    continue
                problems.append("%s:%d: forbidden `%s`" % (f, ln, w))
    return problems


def count_obligations(files):
    n = 0
    names = []
    for f in files:
        if not (f.startswith("proofs/") or f.startswith("props/") or f.startswith("lib/") or f.startswith("spec/")):
            continue
        txt = strip_comments(open(os.path.join(COQ, f)).read())
        for m in re.finditer(r"^\s*(?:Local\s+|Global\s+|#\[[^\]]*\]\s*)?(Theorem|Lemma|Corollary|Example|Fact|Remark|Proposition)\s+(\w+)", txt, re.M):
            n += 1
            names.append(f + ":" + m.group(2))
    return n, names


def coq_build(prop_file, timeout=1500):
    """(Re)build props/<prop_file>.vo and everything it needs.  The property file itself is
    always recompiled so that its Print Assumptions output is captured.
    returns dict(ok, log, assumptions: {thm: [axioms]}, closed: [thm], failed_file)"""
    with Lock("coq"):
        coq_makefile()
        vo = os.path.join(COQ, prop_file[:-2] + ".vo")
        if os.path.exists(vo):
            os.remove(vo)
        rc, out = sh("timeout %d make -j%d %s 2>&1" % (timeout, NCPU, prop_file[:-2] + ".vo"), cwd=COQ, timeout=timeout + 30)
    res = {"ok": rc == 0, "log": out, "assumptions": {}, "closed": [], "failed_file": None}
    m = re.search(r'File "\./([^"]+)", line (\d+)', out)
    if rc != 0 and m:
        res["failed_file"] = "%s:%s" % (m.group(1), m.group(2))
    # Print Assumptions output: the property file prints, for every theorem,
    #   either "Closed under the global context" or "Axioms:" + lines
    txt = strip_comments(open(os.path.join(COQ, prop_file)).read())
    thms = re.findall(r"Print\s+Assumptions\s+(\w+)\s*\.", txt)
    blocks = re.split(r"(Closed under the global context|Axioms:)", out)
    k = 0
    i = 1
    while i < len(blocks) and k < len(thms):
        if blocks[i].startswith("Closed"):
            res["closed"].append(thms[k])
        else:
            body = blocks[i + 1] if i + 1 < len(blocks) else ""
            ax = re.findall(r"^([A-Za-z_][\w.']*)\s*:", body, re.M)
            res["assumptions"][thms[k]] = ax
        k += 1
        i += 2
    res["theorems"] = thms
    res["unreported"] = thms[k:] if rc == 0 else []
    return res


def coq_extract(name, timeout=600):
    """make extract/Extract<name>.vo (re-running extraction if build/ocaml/<name>/model.ml is missing)."""
    d = os.path.join(BUILD, "ocaml", name.lower())
    os.makedirs(d, exist_ok=True)
    with Lock("coq"):
        coq_makefile()
        vo = os.path.join(COQ, "extract", "Extract%s.vo" % name)
        if not os.path.exists(os.path.join(d, "model.ml")) and os.path.exists(vo):
            os.remove(vo)
        rc, out = sh("timeout %d make -j%d extract/Extract%s.vo 2>&1" % (timeout, NCPU, name), cwd=COQ, timeout=timeout + 30)
    return rc == 0, out


def ocaml_build(name, driver, timeout=600):
    """cat model.ml conv.ml <driver> > main.ml; ocamlopt.  Skipped when up to date."""
    d = os.path.join(BUILD, "ocaml", name.lower())
    srcs = [os.path.join(d, "model.ml"), os.path.join(ROOT, "ocaml", "conv.ml"), os.path.join(ROOT, "ocaml", driver)]
    exe = os.path.join(d, name.lower() + "_model")
    if not os.path.exists(srcs[0]):
        return os.path.exists(exe), "model.ml missing", exe
    if os.path.exists(exe) and all(os.path.getmtime(s) <= os.path.getmtime(exe) for s in srcs):
        return True, "up to date", exe
    with Lock("ocaml-" + name):
        with open(os.path.join(d, "main.ml"), "w") as o:
            for s in srcs:
                o.write(open(s).read() + "\n")
        rc, out = sh("ocamlfind ocamlopt -w -a -package unix -linkpkg main.ml -o %s.tmp 2>&1 && mv %s.tmp %s" % (exe, exe, exe), cwd=d, timeout=timeout)
        if rc != 0 and os.path.exists(exe):
            os.remove(exe)          # never run a stale executable model
    return rc == 0, out, exe


# ----------------------------------------------------------------------------- Rust harness

def harness_build(binname, profile="dev", timeout=1500, extra_cfg=""):
    """build one harness binary against REPO's current working tree.  REPO is /repo unless
    VERIF_REPO names another tree (seeded-change and mutation runs use a private copy so that
    /repo itself is never disturbed): then a copy of the harness crate pointing at that tree is
    built into the private build area."""
    import shutil
    hd = os.path.join(ROOT, "harness")
    lockname = "cargo-" + profile
    if ALT:
        dst = os.path.join(ALT, "harness")
        os.makedirs(os.path.join(dst, "src", "bin"), exist_ok=True)
        os.makedirs(os.path.join(dst, ".cargo"), exist_ok=True)
        def put(path, text):
            if not os.path.exists(path) or open(path).read() != text:
                open(path, "w").write(text)
        put(os.path.join(dst, "Cargo.toml"),
            open(os.path.join(hd, "Cargo.toml")).read().replace('path = "/repo"', 'path = "%s"' % os.path.abspath(REPO)))
        put(os.path.join(dst, ".cargo", "config.toml"), '[net]\noffline = true\n[build]\ntarget-dir = "%s"\n' % TARGET)
        for sub in ("src", os.path.join("src", "bin")):
            for f in os.listdir(os.path.join(hd, sub)):
                pth = os.path.join(hd, sub, f)
                if os.path.isfile(pth):
                    put(os.path.join(dst, sub, f), open(pth).read())
        hd = dst
    lock = os.path.join(hd, "Cargo.lock")
    if not os.path.exists(lock):
        base = open(os.path.join(REPO, "Cargo.lock")).read()
        open(lock, "w").write(base)
    flags = "--cfg %s %s" % (GUARD, extra_cfg)
    prof = "" if profile == "dev" else "--release"
    with Lock(lockname):
        rc, out = sh("timeout %d cargo build --offline %s --bin %s 2>&1" % (timeout, prof, binname), cwd=hd,
                     env={"RUSTFLAGS": flags.strip()}, timeout=timeout + 30)
    exe = os.path.join(TARGET, "debug" if profile == "dev" else "release", binname)
    return rc == 0, out, exe


# ----------------------------------------------------------------------------- running tools

def run_lines(exe, lines, shards=NCPU, timeout=1500, args=None, env=None):
    """feed `lines` (list of str) to `exe` over stdin in `shards` parallel processes, keep order.
    returns list of output lines (same length when the tool answers one line per request)."""
    if not lines:
        return []
    shards = max(1, min(shards, len(lines)))
    per = (len(lines) + shards - 1) // shards
    chunks = [lines[i:i + per] for i in range(0, len(lines), per)]
    procs = []
    e = dict(os.environ)
    if env:
        e.update(env)
    for ch in chunks:
        p = subprocess.Popen([exe] + (args or []), stdin=subprocess.PIPE, stdout=subprocess.PIPE, stderr=subprocess.PIPE, text=True, env=e,
                             preexec_fn=_unlimit_stack)
        procs.append((p, ch))
    # write all inputs from threads to avoid deadlock
    import threading
    outs = [None] * len(procs)

    def work(i):
        p, ch = procs[i]
        try:
            o, er = p.communicate("\n".join(ch) + "\n", timeout=timeout)
        except subprocess.TimeoutExpired:
            p.kill()
            o, er = p.communicate()
            o = (o or "") + "\nTOOL-TIMEOUT"
        res = o.split("\n")
        if res and res[-1] == "":
            res.pop()
        if p.returncode not in (0, None) or len(res) != len(ch):
            # pad so that positions stay aligned; mark the crash
            res = res[:len(ch)] + ["TOOL-CRASH(rc=%s %s)" % (p.returncode, (er or "").strip()[-200:].replace("\n", " "))] * (len(ch) - len(res))
        outs[i] = res

    ths = [threading.Thread(target=work, args=(i,)) for i in range(len(procs))]
    for t in ths:
        t.start()
    for t in ths:
        t.join()
    if os.environ.get("VERIF_INJECT_CRASH") and outs and outs[-1]:
        # self-test of the machinery (tools/selftest_crash.sh): pretend that the process of the last shard died
        # half-way; a check must then report a violation, never count the missing answers as agreement
        o = outs[-1]
        k = len(o) // 2
        outs[-1] = o[:k] + ["TOOL-CRASH(rc=-9 injected)"] * (len(o) - k)
    return [x for o in outs for x in o]


def _unlimit_stack():
    import resource
    try:
        resource.setrlimit(resource.RLIMIT_STACK, (resource.RLIM_INFINITY, resource.RLIM_INFINITY))
    except Exception:
        try:
            soft, hard = resource.getrlimit(resource.RLIMIT_STACK)
            resource.setrlimit(resource.RLIMIT_STACK, (hard, hard))
        except Exception:
            pass


# ----------------------------------------------------------------------------- findings / verdicts

def load_known():
    p = os.path.join(ROOT, "known_findings.json")
    if not os.path.exists(p):
        return []
    return json.load(open(p))


def match_known(prop, case):
    """first `known` entry of this property whose matcher holds on the (shrunk) case dict."""
    for k in load_known():
        if k.get("property") != prop or k.get("status") != "known":
            continue
        try:
            if eval(k["matcher"], {"__builtins__": {}}, dict(case, len=len, min=min, max=max, abs=abs, any=any, all=all, str=str, int=int)):
                return k
        except Exception:
            continue
    return None


class Run:
    """collects what one check run did and writes evidence + verdict."""

    def __init__(self, prop, tier, seed):
        self.prop, self.tier, self.seed = prop, tier, seed
        self.t0 = time.time()
        self.cov = {"evaluations": 0, "distinct_nontrivial": 0, "rule": "", "samples": [],
                    "obligations": 0, "discharged": 0, "checker_cmd": "", "trusted_base": [],
                    "traces_validated_against_impl": 0}
        self.assumptions = []
        self.violations = []   # (kind, replay_path, extra)
        self.known = []
        self.notes = []
        self.rng = random.Random(seed)

    def note(self, s):
        self.notes.append(s)
        print("[%s] %s" % (self.prop, s), flush=True)

    def replay_path(self, k):
        d = os.path.join(ROOT, "replays", self.prop)
        os.makedirs(d, exist_ok=True)
        return os.path.join(d, "%d-%s.json" % (self.seed, k))

    def report(self, kind, case, observed, broken=None, found_input=True, what=""):
        """kind: spec-violation | correspondence | proof-obligation"""
        if found_input:
            k = match_known(self.prop, case)
            if k is not None:
                key = k.get("id", k["what"])
                if key not in [x[0] for x in self.known]:
                    self.known.append((key, k["what"]))
                    print("KNOWN-FINDING: property=%s %s" % (self.prop, k["what"]), flush=True)
                return
        path = self.replay_path(len(self.violations))
        json.dump({"property": self.prop, "seed": self.seed, "tier": self.tier, "kind": kind, "case": case,
                   "observed": observed, "broken": broken, "what": what}, open(path, "w"), indent=1, default=str)
        self.violations.append((kind, path, found_input))
        tail = "" if found_input else " no-failing-input-found"
        print("VIOLATION property=%s replay=%s%s" % (self.prop, path, tail), flush=True)

    def finish(self, level="proof"):
        ev = {"property_id": self.prop, "tier": self.tier, "seed": self.seed, "level": level,
              "coverage": self.cov, "assumptions": self.assumptions,
              "wall_s": round(time.time() - self.t0, 2), "violations": len(self.violations)}
        self.cov["notes"] = self.notes[-40:]
        self.cov["known_findings_seen"] = [k for k, _ in self.known]
        if not self.cov["samples"]:
            self.cov["samples"] = ["(none)"]
        # runs against a private copy of the repository (seeded changes) never touch the evidence of /repo
        evdir = os.path.join(ALT, "evidence") if ALT else os.path.join(ROOT, "evidence")
        if os.environ.get("VERIF_INJECT_CRASH"):
            evdir = os.path.join(BUILD, "inject", "evidence")
        os.makedirs(evdir, exist_ok=True)
        json.dump(ev, open(os.path.join(evdir, self.prop + ".json"), "w"), indent=1, default=str)
        return 1 if self.violations else 0


def proof_stage(run, prop_file, gen_sections, extra_trusted=None):
    """steps 1 of DESIGN 2.7: regenerate, rebuild, audit.  returns (ok, broken_descr)"""
    changed, errors = coq_regen(gen_sections)
    broken = []
    for e in errors:
        broken.append("translator anchor lost: " + e)
    res = coq_build(prop_file)
    deps = coq_deps(prop_file)
    nobl, names = count_obligations(deps)
    run.cov["obligations"] = nobl
    run.cov["checker_cmd"] = "make -C coq %s.vo (coqc 8.16.1, full .vo build) + forbidden-command scan + Print Assumptions allow-list" % prop_file[:-2]
    run.cov["property_theorems"] = res.get("theorems", [])
    tb = ["Coq 8.16.1 kernel incl. vm_compute (no native_compute)",
          "tools/gen_tables.py (literal tables/constants regenerated from /repo/src: sections %s)" % ",".join(gen_sections or []),
          "hand-written Gallina models under coq/model (tied to the code by the correspondence run of this check)",
          "Coq extraction with ExtrOcamlBasic only + ocaml/conv.ml + per-property OCaml driver",
          "Rust harness (catch_unwind, canonical printing) and tools/vlib.py differ"]
    if extra_trusted:
        tb += extra_trusted
    run.cov["trusted_base"] = tb
    if not res["ok"]:
        broken.append("proof obligation no longer checks: %s\n%s" % (res["failed_file"], res["log"][-1500:]))
    else:
        aud = coq_audit(deps)
        for a in aud:
            broken.append("audit: " + a)
        for thm, axs in res["assumptions"].items():
            bad = [a for a in axs if a.split(".")[-1] not in ALLOWED_AXIOMS and a not in ALLOWED_AXIOMS]
            if bad:
                broken.append("theorem %s depends on non-allow-listed axioms %s" % (thm, bad))
            run.assumptions.append("%s depends on stdlib axioms %s" % (thm, axs))
        if res["unreported"]:
            broken.append("no Print Assumptions output for %s" % res["unreported"])
        run.cov["closed_under_global_context"] = res["closed"]
    if res["ok"] and run.tier == "thorough" and not broken:
        # independent re-check of the compiled property file and everything it depends on
        mod = "V." + prop_file[:-2].replace("/", ".")
        rc, out = sh("timeout 3000 coqchk -silent -o -Q . V %s 2>&1" % mod, cwd=COQ, timeout=3100)
        m = re.search(r"\* Axioms:(.*?)\n\s*\n\* Constants/Inductives relying on type-in-type:(.*?)\n\s*\n\* Constants/Inductives relying on unsafe \(co\)fixpoints:(.*?)\n\s*\n\* Inductives whose positivity is assumed:(.*?)\n", out + "\n\n", re.S)
        if rc != 0 or not m:
            broken.append("coqchk failed on %s: %s" % (mod, out[-600:]))
        else:
            axs = [a.strip() for a in m.group(1).strip().split("\n") if a.strip() and a.strip() != "<none>"]
            bad = [a for a in axs if a.split(".")[-1] not in ALLOWED_AXIOMS]
            others = [g.strip() for g in m.groups()[1:] if g.strip() != "<none>"]
            run.cov["coqchk"] = {"module": mod, "axioms": axs or "<none>", "type_in_type/unsafe_fix/assumed_positivity": others or "<none>"}
            if bad or others:
                broken.append("coqchk reports non-allow-listed axioms or disabled checks: %s %s" % (bad, others))
    run.cov["discharged"] = nobl if not broken else 0
    run.cov["proof_files"] = deps
    if broken:
        run.note("PROOF STAGE BROKEN: " + " | ".join(b[:300] for b in broken))
    return (not broken), broken


def parse_args(argv):
    import argparse
    ap = argparse.ArgumentParser()
    ap.add_argument("prop")
    ap.add_argument("--tier", default=os.environ.get("VERIF_TIER", "quick"))
    ap.add_argument("--seed", type=int, default=int(os.environ.get("VERIF_SEED", "1") or 1))
    ap.add_argument("--replay", default=None)
    a = ap.parse_args(argv)
    if a.tier not in ("quick", "thorough"):
        a.tier = "quick"
    return a
